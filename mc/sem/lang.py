"""Recipes: the public UFL language as data, a builder (calls the real UFL API) and the
reference interpreter L (labelled numpy tensors; never looks at a UFL object except terminals).

A recipe is a nested tuple (op, *sub_recipes, *params).  Terminals: ("t", name).
Index names are strings "i", "j", "k", ...; the Universe holds one ufl Index per name, reused on
purpose across scopes.
"""

import itertools

import numpy as np

from mc.sem import sem as M
from mc.sem.jet import (
    ONE,
    ZERO,
    S,
    Undefined,
    const_of,
    decide_lt,
    f_abs,
    f_conj,
    f_imag,
    f_pow,
    f_real,
    f_sign,
)


class LangError(Exception):
    """The recipe is not a valid expression of the language (the type filter)."""


class Universe:
    """Named terminals (ufl objects) and a pool of Index objects."""

    def __init__(self, terminals, index_names=("i", "j", "k")):
        import ufl

        self.t = dict(terminals)
        self.idx = {n: ufl.Index() for n in index_names}
        self.idx_by_count = {v.count(): k for k, v in self.idx.items()}


# -----------------------------------------------------------------------------------------------
# labelled tensors
# -----------------------------------------------------------------------------------------------


class LT:
    """Value with free indices: a[fi axes..., shape axes...]. `cond` marks boolean conditions."""

    __slots__ = ("a", "fi", "fid", "shape", "cond")

    def __init__(self, a, fi, fid, shape, cond=False):
        self.a = a
        self.fi = tuple(fi)
        self.fid = dict(fid)
        self.shape = tuple(shape)
        self.cond = cond

    @staticmethod
    def from_value(v, shape):
        a = np.empty(shape, dtype=object)
        if shape:
            a[...] = v
        else:
            a[()] = v
        return LT(a, (), {}, shape)

    def at(self, assign):
        idx = tuple(assign[n] for n in self.fi)
        r = self.a[idx] if idx else self.a
        if not isinstance(r, np.ndarray):
            w = np.empty((), dtype=object)
            w[()] = r
            r = w
        return r

    def assignments(self):
        for vals in itertools.product(*[range(self.fid[n]) for n in self.fi]):
            yield dict(zip(self.fi, vals))


def _merge_fid(*lts):
    fid = {}
    for t in lts:
        for n, d in t.fid.items():
            if fid.setdefault(n, d) != d:
                raise LangError(f"index {n} used with dimensions {fid[n]} and {d}")
    return fid


def pointwise(f, out_shape, *lts, extra_fid=None, cond=False):
    """Result over the union of free indices; f gets the operand sub-arrays at each assignment."""
    fid = _merge_fid(*lts)
    if extra_fid:
        for n, d in extra_fid.items():
            if fid.setdefault(n, d) != d:
                raise LangError(f"index {n} dimension clash")
    fi = tuple(sorted(fid))
    a = np.empty(tuple(fid[n] for n in fi) + tuple(out_shape), dtype=object)
    for vals in itertools.product(*[range(fid[n]) for n in fi]):
        assign = dict(zip(fi, vals))
        r = f(assign, *[t.at(assign) for t in lts])
        if out_shape:
            a[vals] = r
        else:
            a[vals] = r[()] if isinstance(r, np.ndarray) else r
    return LT(a, fi, fid, out_shape, cond)


def sum_over(t, names):
    for n in names:
        ax = t.fi.index(n)
        d = t.fid[n]
        parts = [np.take(t.a, k, axis=ax) for k in range(d)]
        tot = parts[0]
        for p in parts[1:]:
            tot = _add_arr(tot, p)
        fi = t.fi[:ax] + t.fi[ax + 1 :]
        fid = {k: v for k, v in t.fid.items() if k != n}
        if not isinstance(tot, np.ndarray):
            x = np.empty((), dtype=object)
            x[()] = tot
            tot = x
        t = LT(tot, fi, fid, t.shape)
    return t


def _add_arr(x, y):
    if isinstance(x, np.ndarray):
        out = np.empty(x.shape, dtype=object)
        for idx in np.ndindex(x.shape):
            out[idx] = x[idx] + y[idx]
        return out
    return x + y


def _sc(x):
    """Scalar out of a 0-d object array."""
    return x[()] if isinstance(x, np.ndarray) and x.shape == () else x


def _map(f, x):
    if isinstance(x, np.ndarray):
        out = np.empty(x.shape, dtype=object)
        for idx in np.ndindex(x.shape):
            out[idx] = f(x[idx])
        return out
    return f(x)


def _zip(f, x, y):
    out = np.empty(x.shape, dtype=object)
    for idx in np.ndindex(x.shape):
        out[idx] = f(x[idx], y[idx])
    return out


def true_scalar(t):
    return t.shape == () and not t.fi


# -----------------------------------------------------------------------------------------------
# language semantics
# -----------------------------------------------------------------------------------------------


def l_add(a, b, sign=1):
    if a.shape != b.shape:
        raise LangError("add: shapes differ")
    if set(a.fi) != set(b.fi) or any(a.fid[n] != b.fid[n] for n in a.fi):
        raise LangError("add: free indices differ")
    return pointwise(lambda _, x, y: _zip(lambda p, q: p + sign * q, x, y), a.shape, a, b)


def l_mul(a, b):
    rep = [n for n in a.fi if n in b.fi]
    r1, r2 = len(a.shape), len(b.shape)
    if r1 == 0 and r2 == 0:
        p = pointwise(lambda _, x, y: _sc(x) * _sc(y), (), a, b)
    elif r1 == 0 or r2 == 0:
        sh = a.shape or b.shape
        if r1 == 0:
            p = pointwise(lambda _, x, y: _map(lambda q: _sc(x) * q, y), sh, a, b)
        else:
            p = pointwise(lambda _, x, y: _map(lambda q: q * _sc(y), x), sh, a, b)
    elif r1 == 2 and r2 in (1, 2):
        if rep:
            raise LangError("repeated indices in non-scalar product")
        if a.shape[1] != b.shape[0]:
            raise LangError("dimension mismatch in product")
        return l_dot(a, b)
    else:
        raise LangError(f"invalid ranks {r1} and {r2} in product")
    return sum_over(p, rep)


def l_div(a, b):
    if not true_scalar(b):
        raise LangError("division by non-scalar")

    def f(_, x, y):
        d = _sc(y)
        if const_of(d) == 0:
            raise Undefined("division by zero")
        return _map(lambda q: q / d, x)

    return pointwise(f, a.shape, a, b)


def l_pow(a, b):
    if a.shape and true_scalar(b):
        bv = const_of(_sc(b.a))
        if bv == 2 and not isinstance(_sc(b.a), M.Jet):
            return l_inner(a, a)
    if not true_scalar(a) or not true_scalar(b):
        raise LangError("power of non-scalar")
    return pointwise(lambda _, x, y: f_pow(_sc(x), _sc(y)), (), a, b)


def l_unary(f):
    def g(a):
        return pointwise(lambda _, x: _map(f, x), a.shape, a)

    return g


def l_scalar_fn(f):
    def g(a):
        if a.shape or a.fi:
            raise LangError("math function needs a true scalar (no shape, no free indices)")
        return pointwise(lambda _, x: f(_sc(x)), (), a)

    return g


def l_getitem(a, *comp):
    comp = list(comp)
    # expand ellipsis
    if "..." in comp:
        if comp.count("...") > 1:
            raise LangError("two ellipses")
        k = comp.index("...")
        er = len(a.shape) - len(comp) + 1
        if er < 0:
            raise LangError("too many indices")
        comp = comp[:k] + [":"] * er + comp[k + 1 :]
    if len(comp) != len(a.shape):
        raise LangError("wrong number of indices")
    names = [c for c in comp if isinstance(c, str) and c not in (":",)]
    rep = []
    seen = []
    for n in names:
        if n in a.fi or n in seen:
            if n not in rep:
                rep.append(n)
        seen.append(n)
    for pos, c in enumerate(comp):
        if isinstance(c, int) and not (0 <= c < a.shape[pos]):
            raise LangError("index out of range")
    if all(c == ":" for c in comp):
        return a
    extra = {}
    for pos, c in enumerate(comp):
        if isinstance(c, str) and c != ":":
            if extra.setdefault(c, a.shape[pos]) != a.shape[pos]:
                raise LangError("index dimension clash")
    out_shape = tuple(a.shape[pos] for pos, c in enumerate(comp) if c == ":")

    def f(assign, x):
        idx = tuple(
            slice(None) if c == ":" else (c if isinstance(c, int) else assign[c]) for c in comp
        )
        return x[idx]

    p = pointwise(f, out_shape, a, extra_fid=extra)
    return sum_over(p, rep)


def l_as_tensor(a, *names):
    if a.shape != ():
        raise LangError("as_tensor of non-scalar")
    if len(set(names)) != len(names):
        raise LangError("repeated index in as_tensor")
    for n in names:
        if n not in a.fi:
            raise LangError("as_tensor index not free in expression")
    if not names:
        return a
    fi = tuple(n for n in a.fi if n not in names)
    src = [a.fi.index(n) for n in fi] + [a.fi.index(n) for n in names]
    arr = np.transpose(a.a, src)
    fid = {n: a.fid[n] for n in fi}
    return LT(arr, fi, fid, tuple(a.fid[n] for n in names))


def l_list(*comps):
    c0 = comps[0]
    for c in comps[1:]:
        if c.shape != c0.shape:
            raise LangError("list tensor: shapes differ")
        if set(c.fi) != set(c0.fi) or any(c.fid[n] != c0.fid[n] for n in c.fi):
            raise LangError("list tensor: free indices differ")

    def f(_, *xs):
        out = np.empty((len(xs),) + c0.shape, dtype=object)
        for k, x in enumerate(xs):
            out[k] = _sc(x) if c0.shape == () else x
        return out

    return pointwise(f, (len(comps),) + c0.shape, *comps)


def _no_overlap(a, b):
    if set(a.fi) & set(b.fi):
        raise LangError("overlapping free indices in compound operator")


def l_dot(a, b):
    if not a.shape and not b.shape:
        return l_mul(a, b)
    _no_overlap(a, b)
    if not a.shape or not b.shape:
        raise LangError("dot of scalar and tensor")
    if a.shape[-1] != b.shape[0]:
        raise LangError("dot dimension mismatch")
    osh = a.shape[:-1] + b.shape[1:]

    def f(_, x, y):
        out = np.empty(osh, dtype=object)
        for ia in np.ndindex(a.shape[:-1]):
            for ib in np.ndindex(b.shape[1:]):
                s = ZERO
                for k in range(a.shape[-1]):
                    s = s + x[ia + (k,)] * y[(k,) + ib]
                out[ia + ib] = s
        return out

    return pointwise(f, osh, a, b)


def l_inner(a, b):
    if not a.shape and not b.shape:
        return l_mul(a, l_unary(f_conj)(b))
    if a.shape != b.shape:
        raise LangError("inner: shapes differ")
    _no_overlap(a, b)

    def f(_, x, y):
        s = ZERO
        for idx in np.ndindex(a.shape):
            s = s + x[idx] * f_conj(y[idx])
        return s

    return pointwise(f, (), a, b)


def l_outer(a, b):
    if not a.shape and not b.shape:
        return l_mul(l_unary(f_conj)(a), b)
    _no_overlap(a, b)
    osh = a.shape + b.shape

    def f(_, x, y):
        out = np.empty(osh, dtype=object)
        for ia in np.ndindex(a.shape):
            for ib in np.ndindex(b.shape):
                out[ia + ib] = f_conj(x[ia]) * y[ib]
        return out

    return pointwise(f, osh, a, b)


def l_cross(a, b):
    if a.shape != (3,) or b.shape != (3,):
        raise LangError("cross needs 3-vectors")
    _no_overlap(a, b)

    def f(_, x, y):
        out = np.empty((3,), dtype=object)
        out[0] = x[1] * y[2] - x[2] * y[1]
        out[1] = x[2] * y[0] - x[0] * y[2]
        out[2] = x[0] * y[1] - x[1] * y[0]
        return out

    return pointwise(f, (3,), a, b)


def l_perp(a):
    if a.shape != (2,):
        raise LangError("perp needs a 2-vector")

    def f(_, x):
        out = np.empty((2,), dtype=object)
        out[0] = -x[1]
        out[1] = x[0]
        return out

    return pointwise(f, (2,), a)


def l_transpose(a):
    if a.shape == ():
        return a
    if len(a.shape) != 2:
        raise LangError("transpose of non-matrix")
    return pointwise(lambda _, x: x.T.copy(), a.shape[::-1], a)


def _square(a, what, allow_fi=False):
    if len(a.shape) != 2 or a.shape[0] != a.shape[1]:
        raise LangError(f"{what} needs a square matrix")
    if a.fi and not allow_fi:
        raise LangError(f"{what} with free indices")


def l_tr(a):
    if len(a.shape) != 2:
        raise LangError("trace of non-matrix")
    if a.shape[0] != a.shape[1]:
        raise LangError("trace of non-square")

    def f(_, x):
        s = ZERO
        for i in range(a.shape[0]):
            s = s + x[i, i]
        return s

    return pointwise(f, (), a)


def l_det(a):
    from mc.sem.cells import det

    if a.shape == ():
        return a
    _square(a, "det")
    return pointwise(lambda _, x: det(x), (), a)


def l_inv(a):
    from mc.sem.cells import inv

    if a.shape == ():
        if a.fi:
            raise LangError("inv with free indices")
        return pointwise(lambda _, x: M.s_div(ONE, _sc(x)), (), a)
    _square(a, "inv")
    return pointwise(lambda _, x: inv(x), a.shape, a)


def l_cofac(a):
    from mc.sem.cells import det

    _square(a, "cofac")
    n = a.shape[0]

    def f(_, x):
        out = np.empty((n, n), dtype=object)
        for i in range(n):
            for j in range(n):
                rows = [r for r in range(n) if r != i]
                cols = [c for c in range(n) if c != j]
                out[i, j] = S((-1) ** (i + j)) * det(x[np.ix_(rows, cols)])
        return out

    return pointwise(f, a.shape, a)


def l_dev(a):
    _square(a, "dev")
    n = a.shape[0]

    def f(_, x):
        tr = ZERO
        for i in range(n):
            tr = tr + x[i, i]
        out = x.copy()
        for i in range(n):
            out[i, i] = out[i, i] - tr / n
        return out

    return pointwise(f, a.shape, a)


def l_sym(a, sign=1):
    _square(a, "sym/skew")
    return pointwise(lambda _, x: _zip(lambda p, q: (p + sign * q) / 2, x, x.T.copy()), a.shape, a)


def l_diag(a):
    if len(a.shape) == 1:
        n = a.shape[0]

        def f(_, x):
            out = np.empty((n, n), dtype=object)
            out[...] = ZERO
            for i in range(n):
                out[i, i] = x[i]
            return out

        return pointwise(f, (n, n), a)
    if len(a.shape) == 2 and a.shape[0] == a.shape[1]:
        n = a.shape[0]

        def g(_, x):
            out = np.empty((n, n), dtype=object)
            out[...] = ZERO
            for i in range(n):
                out[i, i] = x[i, i]
            return out

        return pointwise(g, (n, n), a)
    raise LangError("diag")


def l_diag_vector(a):
    if len(a.shape) != 2 or a.shape[0] != a.shape[1]:
        raise LangError("diag_vector")
    n = a.shape[0]

    def f(_, x):
        out = np.empty((n,), dtype=object)
        for i in range(n):
            out[i] = x[i, i]
        return out

    return pointwise(f, (n,), a)


def l_elem(fop):
    def g(a, b):
        if a.shape != b.shape:
            raise LangError("elem op: shapes differ")
        if a.fi or b.fi:
            raise LangError("elem op with free indices (not in alphabet)")
        return pointwise(lambda _, x, y: _zip(fop, x, y) if a.shape else fop(_sc(x), _sc(y)), a.shape, a, b)

    return g


def _cond_lt(v):
    t = LT.from_value(bool(v), ())
    t.cond = True
    return t


def l_conditional(c, t, f):
    if not c.cond:
        raise LangError("conditional needs a condition")
    if t.shape != f.shape or set(t.fi) != set(f.fi) or any(t.fid[n] != f.fid[n] for n in t.fi):
        raise LangError("conditional branches differ")
    return t if bool(_sc(c.a)) else f


def l_minmax(kind):
    def g(a, b):
        if not true_scalar(a) or not true_scalar(b):
            raise LangError("min/max of non-scalar")
        x, y = _sc(a.a), _sc(b.a)
        lt = decide_lt(x, y)
        if kind == "min":
            return a if lt else b
        return b if lt else a

    return g


# -----------------------------------------------------------------------------------------------
# operator table: name -> (number of expression args, builder, semantics)
# -----------------------------------------------------------------------------------------------


def _ix(U, c):
    if c == ":":
        return slice(None)
    if c == "...":
        return Ellipsis
    if isinstance(c, str):
        return U.idx[c]
    return c


def _build_ops():
    import ufl

    ops = {}

    def op(name, nexpr, build, semf):
        ops[name] = (nexpr, build, semf)

    op("add", 2, lambda U, a, b: a + b, lambda a, b: l_add(a, b))
    op("sub", 2, lambda U, a, b: a - b, lambda a, b: l_add(a, b, -1))
    op("mul", 2, lambda U, a, b: a * b, l_mul)
    op("div", 2, lambda U, a, b: a / b, l_div)
    op("pow", 2, lambda U, a, b: a**b, l_pow)
    op("neg", 1, lambda U, a: -a, l_unary(lambda x: -x))
    op("pos2", 1, lambda U, a: 2 * a, l_unary(lambda x: 2 * x))
    op("abs", 1, lambda U, a: abs(a), l_unary(f_abs))
    op("conj", 1, lambda U, a: ufl.conj(a), l_unary(f_conj))
    op("real", 1, lambda U, a: ufl.real(a), l_unary(f_real))
    op("imag", 1, lambda U, a: ufl.imag(a), l_unary(f_imag))
    op("sign", 1, lambda U, a: ufl.sign(a), l_scalar_fn(f_sign))
    for nm, uf in [
        ("sqrt", "Sqrt"),
        ("exp", "Exp"),
        ("ln", "Ln"),
        ("sin", "Sin"),
        ("cos", "Cos"),
        ("tan", "Tan"),
        ("sinh", "Sinh"),
        ("cosh", "Cosh"),
        ("tanh", "Tanh"),
        ("asin", "Asin"),
        ("acos", "Acos"),
        ("atan", "Atan"),
        ("erf", "Erf"),
    ]:
        op(
            nm,
            1,
            (lambda nm: lambda U, a: getattr(ufl, nm)(a))(nm),
            l_scalar_fn((lambda uf: lambda x: M.math_fn(uf, x))(uf)),
        )
    op(
        "getitem",
        1,
        lambda U, a, *c: a[tuple(_ix(U, x) for x in c) if len(c) != 1 else _ix(U, c[0])],
        l_getitem,
    )
    op(
        "as_tensor",
        1,
        lambda U, a, *n: ufl.as_tensor(a, tuple(U.idx[x] for x in n)),
        l_as_tensor,
    )
    op("xor", 1, lambda U, a, *n: a ^ tuple(U.idx[x] for x in n), l_as_tensor)
    op("as_vector", -1, lambda U, *c: ufl.as_vector(list(c)), l_list)
    op("dot", 2, lambda U, a, b: ufl.dot(a, b), l_dot)
    op("inner", 2, lambda U, a, b: ufl.inner(a, b), l_inner)
    op("outer", 2, lambda U, a, b: ufl.outer(a, b), l_outer)
    op("cross", 2, lambda U, a, b: ufl.cross(a, b), l_cross)
    op("perp", 1, lambda U, a: ufl.perp(a), l_perp)
    op("transpose", 1, lambda U, a: ufl.transpose(a), l_transpose)
    op("T", 1, lambda U, a: a.T, lambda a: l_transpose(a) if a.shape else _raise(LangError(".T of scalar")))
    op("tr", 1, lambda U, a: ufl.tr(a), l_tr)
    op("det", 1, lambda U, a: ufl.det(a), l_det)
    op("inv", 1, lambda U, a: ufl.inv(a), l_inv)
    op("cofac", 1, lambda U, a: ufl.cofac(a), l_cofac)
    op("dev", 1, lambda U, a: ufl.dev(a), l_dev)
    op("sym", 1, lambda U, a: ufl.sym(a), lambda a: l_sym(a, 1))
    op("skew", 1, lambda U, a: ufl.skew(a), lambda a: l_sym(a, -1))
    op("diag", 1, lambda U, a: ufl.diag(a), l_diag)
    op("diag_vector", 1, lambda U, a: ufl.diag_vector(a), l_diag_vector)
    op("elem_mult", 2, lambda U, a, b: ufl.elem_mult(a, b), l_elem(lambda x, y: x * y))
    op("elem_div", 2, lambda U, a, b: ufl.elem_div(a, b), l_elem(M.s_div))
    op("elem_pow", 2, lambda U, a, b: ufl.elem_pow(a, b), l_elem(f_pow))
    for k in ("lt", "gt", "le", "ge", "eq", "ne"):
        op(k, 2, (lambda k: lambda U, a, b: getattr(ufl, k)(a, b))(k), _mk_cmp(k))
    op("And", 2, lambda U, a, b: ufl.And(a, b), lambda a, b: _bool2(a, b, lambda p, q: p and q))
    op("Or", 2, lambda U, a, b: ufl.Or(a, b), lambda a, b: _bool2(a, b, lambda p, q: p or q))
    op("Not", 1, lambda U, a: ufl.Not(a), lambda a: _bool1(a))
    op("conditional", 3, lambda U, c, t, f: ufl.conditional(c, t, f), l_conditional)
    op("max_value", 2, lambda U, a, b: ufl.max_value(a, b), l_minmax("max"))
    op("min_value", 2, lambda U, a, b: ufl.min_value(a, b), l_minmax("min"))
    op("atan2", 2, lambda U, a, b: ufl.atan2(a, b), l_atan2)
    for nm in ("J", "Y", "I", "K"):
        op(
            "bessel_" + nm,
            1,
            (lambda nm: lambda U, a, nu: getattr(ufl, "bessel_" + nm)(nu, a))(nm),
            (lambda nm: lambda a, nu: l_scalar_fn(lambda x: M.fn("bessel" + nm, x, S(nu)))(a))(nm),
        )
    # spatial derivatives (semantics need the cell: ctx is passed as keyword)
    CTX_OPS.update({"grad", "divg", "curl", "nabla_grad", "nabla_div", "dx", "Dn"})
    op("grad", 1, lambda U, a: ufl.grad(a), l_grad)
    op("nabla_grad", 1, lambda U, a: ufl.nabla_grad(a), l_nabla_grad)
    op("divg", 1, lambda U, a: ufl.div(a), l_div_op)
    op("nabla_div", 1, lambda U, a: ufl.nabla_div(a), l_nabla_div)
    op("curl", 1, lambda U, a: ufl.curl(a), l_curl)
    op("dx", 1, lambda U, a, *k: a.dx(*[_ix(U, x) for x in k]), l_dx)
    return ops


CTX_OPS = set()


def _garr(x, cell):
    """Physical gradient of a sub-array (or 0-d array) -> array with a new last axis."""
    return M.phys_grad(_sc(x) if x.shape == () else x, cell)


def l_grad(a, ctx=None):
    M._need_jets(ctx)
    cell = ctx.cell()
    return pointwise(lambda _, x: _garr(x, cell), a.shape + (cell.gdim,), a)


def l_nabla_grad(a, ctx=None):
    g = l_grad(a, ctx=ctx)
    if not a.shape:
        return g
    return pointwise(lambda _, x: np.moveaxis(x, -1, 0).copy(), (g.shape[-1],) + a.shape, g)


def l_div_op(a, ctx=None):
    if not a.shape:
        raise LangError("div of scalar")
    g = l_grad(a, ctx=ctx)
    if a.shape[-1] != g.shape[-1]:
        raise LangError("div: last dimension is not gdim")
    return pointwise(lambda _, x: M._trace_last_two(x), a.shape[:-1], g)


def l_nabla_div(a, ctx=None):
    if not a.shape:
        raise LangError("nabla_div of scalar")
    g = l_grad(a, ctx=ctx)
    if a.shape[0] != g.shape[-1]:
        raise LangError("nabla_div: first dimension is not gdim")

    def f(_, x):
        x2 = np.moveaxis(x, 0, -2) if x.ndim > 2 else x
        return M._trace_last_two(x2)

    return pointwise(f, a.shape[1:], g)


def l_curl(a, ctx=None):
    g = l_grad(a, ctx=ctx)
    gd = g.shape[-1]
    if a.shape == () and gd == 2:

        def f0(_, x):
            out = np.empty((2,), dtype=object)
            out[0] = x[1]
            out[1] = -x[0]
            return out

        return pointwise(f0, (2,), g)
    if a.shape == (2,) and gd == 2:
        return pointwise(lambda _, x: x[1, 0] - x[0, 1], (), g)
    if a.shape == (3,) and gd == 3:

        def f3(_, x):
            out = np.empty((3,), dtype=object)
            out[0] = x[2, 1] - x[1, 2]
            out[1] = x[0, 2] - x[2, 0]
            out[2] = x[1, 0] - x[0, 1]
            return out

        return pointwise(f3, (3,), g)
    raise LangError("curl shape")


def l_dx(a, *k, ctx=None):
    g = a
    for _ in k:
        g = l_grad(g, ctx=ctx)
    return l_getitem(g, "...", *k)


def l_atan2(a, b):
    if not true_scalar(a) or not true_scalar(b):
        raise LangError("atan2 of non-scalars")

    class _O:
        pass

    x, y = _sc(a.a), _sc(b.a)
    import mpmath

    from mc.sem.jet import Jet, real_const

    ra, rb = real_const(x, "atan2"), real_const(y, "atan2")
    if ra == 0 and rb == 0:
        raise Undefined("atan2(0,0)")
    base = mpmath.atan2(ra, rb)
    if isinstance(x, Jet) or isinstance(y, Jet):
        if abs(rb) > abs(ra):
            j = M.fn("atan", M.s_div(x, y))
        else:
            j = -M.fn("atan", M.s_div(y, x))
        return LT.from_value(j - const_of(j) + base, ())
    return LT.from_value(base, ())


def _raise(e):
    raise e


def _mk_cmp(kind):
    def g(a, b):
        if not true_scalar(a) or not true_scalar(b):
            raise LangError("condition on non-scalar")
        x, y = _sc(a.a), _sc(b.a)
        if kind == "lt":
            r = decide_lt(x, y)
        elif kind == "gt":
            r = decide_lt(y, x)
        elif kind == "le":
            r = not decide_lt(y, x)
        elif kind == "ge":
            r = not decide_lt(x, y)
        elif kind == "eq":
            r = M.s_eq(x, y)
        else:
            r = not M.s_eq(x, y)
        return _cond_lt(r)

    return g


def _bool2(a, b, f):
    if not (a.cond and b.cond):
        raise LangError("boolean operator on non-condition")
    return _cond_lt(f(bool(_sc(a.a)), bool(_sc(b.a))))


def _bool1(a):
    if not a.cond:
        raise LangError("Not on non-condition")
    return _cond_lt(not bool(_sc(a.a)))


OPS = None


def ops():
    global OPS
    if OPS is None:
        OPS = _build_ops()
    return OPS


def split_args(recipe):
    name = recipe[0]
    nexpr = ops()[name][0]
    args = recipe[1:]
    if nexpr == -1:
        return list(args), []
    return list(args[:nexpr]), list(args[nexpr:])


def build(recipe, U):
    """Build the UFL object for a recipe through the public API."""
    name = recipe[0]
    if name == "t":
        return U.t[recipe[1]]
    if name == "num":
        return recipe[1]
    if name == "side":
        return build(recipe[1], U)(recipe[2])
    if name in ("jump", "avg"):
        import ufl

        return getattr(ufl, name)(build(recipe[1], U))
    if name == "refval":
        from ufl.classes import ReferenceValue

        return ReferenceValue(build(recipe[1], U))
    es, ps = split_args(recipe)
    b = ops()[name][1]
    return b(U, *[build(e, U) for e in es], *ps)


def interp(recipe, U, ctx, cache=None):
    """L: the meaning of the recipe as a labelled tensor."""
    name = recipe[0]
    if name == "t":
        o = U.t[recipe[1]]
        v = M.sem(o, ctx, {})
        return LT.from_value(v, o.ufl_shape)
    if name == "num":
        return LT.from_value(S(recipe[1]), ())
    if name == "side":
        if ctx.side is not None:
            raise LangError("nested restriction")
        if not ctx.env.two_sided:
            raise Undefined("restriction in one-sided env")
        return interp(recipe[1], U, M._side_ctx(ctx, recipe[2]))
    if name in ("jump", "avg"):
        if ctx.side is not None:
            raise LangError("nested restriction")
        if not ctx.env.two_sided:
            raise Undefined("restriction in one-sided env")
        a = interp(recipe[1], U, M._side_ctx(ctx, "+"))
        b = interp(recipe[1], U, M._side_ctx(ctx, "-"))
        if name == "jump":
            return l_add(a, b, -1)
        return l_unary(lambda x: x / 2)(l_add(a, b))
    if name == "refval":
        # leaf-level: the reference value of a form argument is field data, not something L computes
        if recipe[1][0] != "t":
            raise LangError("reference value of a non-terminal")
        from ufl.classes import FormArgument, ReferenceValue

        o = U.t[recipe[1][1]]
        if not isinstance(o, FormArgument):
            raise LangError("reference value of a non-form-argument")
        ro = ReferenceValue(o)
        return LT.from_value(M.sem(ro, ctx, {}), ro.ufl_shape)
    es, ps = split_args(recipe)
    f = ops()[name][2]
    if name in CTX_OPS:
        return f(*[interp(e, U, ctx) for e in es], *ps, ctx=ctx)
    return f(*[interp(e, U, ctx) for e in es], *ps)


def show_recipe(r):
    """Compact python-like rendering of a recipe."""
    name = r[0]
    if name == "t":
        return r[1]
    if name == "num":
        return repr(r[1])
    if name == "side":
        return f"({show_recipe(r[1])})('{r[2]}')"
    if name in ("jump", "avg"):
        return f"{name}({show_recipe(r[1])})"
    if name == "refval":
        return f"ReferenceValue({show_recipe(r[1])})"
    es, ps = split_args(r)
    ss = [show_recipe(e) for e in es]
    inf = {"add": "+", "sub": "-", "mul": "*", "div": "/", "pow": "**"}
    if name in inf:
        return f"({ss[0]} {inf[name]} {ss[1]})"
    if name == "neg":
        return f"(-{ss[0]})"
    if name == "getitem":
        return f"{ss[0]}[{', '.join(str(p) for p in ps)}]"
    if name == "as_vector":
        return f"as_vector([{', '.join(ss)}])"
    if name == "as_tensor":
        return f"as_tensor({ss[0]}, ({', '.join(ps)},))"
    return f"{name}({', '.join(ss + [str(p) for p in ps])})"


def compare_lt_obj(lt, obj, U, ctx, tol=None):
    """Compare L's labelled tensor with Sem of the constructed object.

    Returns None if they agree, else a dict describing the difference.
    """
    from mc.sem.jet import mpf

    tol = tol or mpf("1e-10")
    if lt.cond:
        v = M.sem(obj, ctx, {})
        if bool(v) != bool(_sc(lt.a)):
            return {"kind": "value", "model": bool(_sc(lt.a)), "ufl": bool(v)}
        return None
    if tuple(obj.ufl_shape) != lt.shape:
        return {"kind": "shape", "model": list(lt.shape), "ufl": list(obj.ufl_shape)}
    ofi = {}
    for c, d in zip(obj.ufl_free_indices, obj.ufl_index_dimensions):
        n = U.idx_by_count.get(c)
        if n is None:
            return {"kind": "free_indices", "model": sorted(lt.fi), "ufl": f"foreign index {c}"}
        ofi[n] = d
    if ofi != lt.fid:
        return {"kind": "free_indices", "model": lt.fid, "ufl": ofi}
    for assign in lt.assignments():
        rho = {U.idx[n].count(): k for n, k in assign.items()}
        v = M.sem(obj, ctx, rho)
        w = lt.at(assign)
        if lt.shape == ():
            w = _sc(w)
        if not M.values_close(v, w, tol):
            return {
                "kind": "value",
                "indices": assign,
                "model": M.show(w),
                "ufl": M.show(v),
            }
    return None
