"""Field data for form arguments and constants, and element push-forwards written directly.

The only things read from UFL objects here are element *attributes* (pullback class name, reference value
shape, sub-elements, symmetry map, degree): recognition, never a UFL algorithm.
"""

import zlib

import numpy as np
from mpmath import mpf

from mc.sem.cells import zeros
from mc.sem.jet import ONE, ZERO, Jet, S, Undefined


def gen_coeff(key, lo=3, hi=40, den=64):
    """A deterministic 'generic' rational in +-[lo/den, hi/den] derived from a key."""
    h = zlib.crc32(repr(key).encode())
    mag = lo + (h % (hi - lo + 1))
    sgn = 1 if (h >> 16) & 1 else -1
    return mpf(sgn * mag) / den


def gen_positive(key, lo=20, hi=44, den=64):
    h = zlib.crc32(repr(key).encode())
    return mpf(lo + (h % (hi - lo + 1))) / den


def monomials(nvars, degree):
    """All exponent tuples of total degree <= degree."""
    if nvars == 0:
        return [()]
    out = []

    def rec(prefix, left, k):
        if k == nvars:
            out.append(tuple(prefix))
            return
        for p in range(left + 1):
            rec(prefix + [p], left - p, k + 1)

    rec([], degree, 0)
    return out


def poly_eval(key, point, degree):
    """Generic polynomial of given total degree, identified by key, at a point (scalars or jets)."""
    n = len(point)
    tot = None
    for mono in monomials(n, degree):
        if sum(mono) == 0:
            c = gen_positive((key, mono))
        else:
            c = gen_coeff((key, mono), lo=2, hi=12)
        term = c
        for v, p in zip(point, mono):
            for _ in range(p):
                term = term * v
        tot = term if tot is None else tot + term
    return tot


# ---------------------------------------------------------------------------------------------
# element structure
# ---------------------------------------------------------------------------------------------


def pullback_kind(element):
    return type(element.pullback).__name__


def leaves(element):
    """Flatten an element into leaf blocks: list of (leaf element, reference offset, reference size).

    For a symmetric element the leaves are its sub-elements in reference order (each once).
    """
    kind = pullback_kind(element)
    subs = list(element.sub_elements)
    if subs and kind in ("MixedPullback", "SymmetricPullback", "IdentityPullback"):
        out = []
        off = 0
        for s in subs:
            for leaf, o, n in leaves(s):
                out.append((leaf, off + o, n))
            off += s.reference_value_size
        return out
    return [(element, 0, element.reference_value_size)]


def _apply_last(M, R, scale=None):
    """out[..., i] = sum_j M[i, j] R[..., j]  (optionally times scale)."""
    out = zeros(R.shape[:-1] + (M.shape[0],))
    for pre in np.ndindex(R.shape[:-1]):
        for i in range(M.shape[0]):
            s = ZERO
            for j in range(M.shape[1]):
                s = s + M[i, j] * R[pre + (j,)]
            out[pre + (i,)] = s * scale if scale is not None else s
    return out


def push_forward(element, R, cell):
    """Physical value (object array) of a function with reference value R (object array) on `cell`."""
    kind = pullback_kind(element)
    J, K, detJ = cell.J, cell.K, cell.detJ
    g, t = cell.gdim, cell.tdim
    if kind == "IdentityPullback":
        return R
    if kind == "ContravariantPiola":
        return _apply_last(J, R, ONE / detJ)
    if kind == "CovariantPiola":
        return _apply_last(K.T, R)
    if kind == "L2Piola":
        if not isinstance(R, np.ndarray):
            return R / detJ
        out = zeros(R.shape)
        for idx in np.ndindex(R.shape):
            out[idx] = R[idx] / detJ
        if R.shape == ():
            return out[()]
        return out
    if kind in ("DoubleCovariantPiola", "DoubleContravariantPiola", "CovariantContravariantPiola"):
        if kind == "DoubleCovariantPiola":
            A, B, sc = K.T, K.T, ONE
        elif kind == "DoubleContravariantPiola":
            A, B, sc = J, J, ONE / (detJ * detJ)
        else:
            A, B, sc = K.T, J, ONE / detJ
        # u[..., i, j] = sc * sum_mn A[i, m] R[..., m, n] B[j, n]
        out = zeros(R.shape[:-2] + (g, g))
        for pre in np.ndindex(R.shape[:-2]):
            for i in range(g):
                for j in range(g):
                    s = ZERO
                    for m in range(t):
                        for n in range(t):
                            s = s + A[i, m] * R[pre + (m, n)] * B[j, n]
                    out[pre + (i, j)] = s * sc
        return out
    if kind == "MixedPullback":
        flat = R.reshape(-1)
        comps = []
        off = 0
        for sub in element.sub_elements:
            n = sub.reference_value_size
            rsub = flat[off : off + n].reshape(sub.reference_value_shape)
            if sub.reference_value_shape == ():
                rsub = flat[off]
            psub = push_forward(sub, rsub, cell)
            comps.extend(np.asarray(psub, dtype=object).reshape(-1))
            off += n
        out = np.empty((len(comps),), dtype=object)
        out[:] = comps
        return out
    if kind == "SymmetricPullback":
        sym = element.pullback._symmetry
        block = tuple(i + 1 for i in max(sym.keys()))
        flat = R.reshape(-1)
        offs = [0]
        for sub in element.sub_elements:
            offs.append(offs[-1] + sub.reference_value_size)
        comps = []
        pvs = None
        for comp in np.ndindex(block):
            i = sym[comp]
            sub = element.sub_elements[i]
            rsub = flat[offs[i] : offs[i + 1]].reshape(sub.reference_value_shape)
            if sub.reference_value_shape == ():
                rsub = flat[offs[i]]
            psub = np.asarray(push_forward(sub, rsub, cell), dtype=object)
            pvs = psub.shape
            comps.extend(psub.reshape(-1))
        out = np.empty((len(comps),), dtype=object)
        out[:] = comps
        return out.reshape(block + pvs)
    raise Undefined(f"push-forward for {kind}")


def physical_shape(element, cell):
    """Physical value shape predicted by the model."""
    kind = pullback_kind(element)
    rs = tuple(element.reference_value_shape)
    g = cell.gdim
    if kind == "IdentityPullback":
        return rs
    if kind in ("ContravariantPiola", "CovariantPiola"):
        return rs[:-1] + (g,)
    if kind == "L2Piola":
        return rs
    if kind in ("DoubleCovariantPiola", "DoubleContravariantPiola", "CovariantContravariantPiola"):
        return rs[:-2] + (g, g)
    if kind == "MixedPullback":
        return (sum(int(np.prod(physical_shape(s, cell), dtype=int)) for s in element.sub_elements),)
    if kind == "SymmetricPullback":
        sym = element.pullback._symmetry
        block = tuple(i + 1 for i in max(sym.keys()))
        return block + physical_shape(element.sub_elements[0], cell)
    raise Undefined(kind)


class FieldData:
    """Generic polynomial data for every form argument / constant, keyed by a stable key."""

    def __init__(self, salt=0, complex_mode=False, max_degree=3):
        self.salt = salt
        self.complex_mode = complex_mode
        self.max_degree = max_degree
        self.scale = {}  # key -> scalar multiplier (used by linearity checks)
        self.variant = {}  # key -> [(salt, multiplier)]: the field is that linear combination (linearity checks)

    def _poly(self, key, point, degree, imag_ok):
        """Field polynomial; self.variant[fkey] = [(salt, multiplier), ...] makes the field a linear combination."""
        fkey = key[0]
        terms = self.variant.get(fkey)
        if terms is None:
            return self._poly1(self.salt, key, point, degree, imag_ok)
        tot = None
        for salt, mult in terms:
            t = self._poly1(salt, key, point, degree, imag_ok) * mult
            tot = t if tot is None else tot + t
        return tot

    def _poly1(self, salt, key, point, degree, imag_ok):
        v = poly_eval((salt, key, "re"), point, degree)
        if self.complex_mode and imag_ok:
            from mpmath import mpc

            v = v + mpc(0, 1) * poly_eval((salt, key, "im"), point, degree)
        return v

    def reference_value(self, fkey, element, cell, side, Xjets, xjets, imag_ok=True, shift=0):
        """Reference value (object array of element.reference_value_shape) at the jets point.

        shift: offset added to the component number in the data key (a sub-space argument of a block
        denotes the components shift.. of the mixed argument it was split from).
        """
        rs = tuple(element.reference_value_shape)
        n = element.reference_value_size
        flat = np.empty((n,), dtype=object)
        for leaf, off, size in leaves(element):
            deg = leaf.embedded_superdegree
            deg = 0 if deg is None else min(int(deg), self.max_degree)
            ident = pullback_kind(leaf) == "IdentityPullback"
            for r in range(size):
                if ident:
                    # physical polynomial, shared by both sides (continuity of H1 data)
                    flat[off + r] = self._poly((fkey, shift + off + r, "phys"), list(xjets), deg, imag_ok)
                else:
                    flat[off + r] = self._poly(
                        (fkey, shift + off + r, "ref", side), list(Xjets), deg, imag_ok
                    )
        m = self.scale.get(fkey)
        if m is not None:
            for r in range(n):
                flat[r] = flat[r] * m
        if rs == ():
            return flat[0]
        return flat.reshape(rs)

    def constant_value(self, ckey, shape):
        out = np.empty(shape, dtype=object)
        for idx in np.ndindex(*shape) if shape else [()]:
            v = gen_positive((self.salt, "const", ckey, idx, "re"))
            if self.complex_mode:
                from mpmath import mpc

                v = v + mpc(0, 1) * gen_coeff((self.salt, "const", ckey, idx, "im"))
            if shape:
                out[idx] = v
            else:
                return v
        return out
