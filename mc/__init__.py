"""Bounded exhaustive model checking of FEniCS/ufl (see /verif/DESIGN.md)."""
import os
import sys

_here = os.path.dirname(os.path.abspath(__file__))
_deps = os.path.join(os.path.dirname(_here), "_deps")
if os.path.isdir(_deps) and _deps not in sys.path:
    sys.path.insert(0, _deps)
sys.dont_write_bytecode = True
