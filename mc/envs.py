"""Catalogue of concrete environments (cells, points, field data) and UFL meshes for the drivers."""

from mpmath import mpf

import ufl
from mc import elements as E
from mc.sem.cells import ConcreteCell, neighbour
from mc.sem.fields import FieldData
from mc.sem.sem import Env

# vertex sets: (cellname, gdim) -> list of vertex lists; first is positively oriented and anisotropic,
# second has det J < 0 where that makes sense
VERTS = {
    ("interval", 1): [[(1,), (3,)], [(2,), ("-0.5",)]],
    ("interval", 2): [[(1, 0), (2, 3)], [(0, 1), (-2, "0.5")]],
    ("interval", 3): [[(1, 0, 1), (2, 3, -1)]],
    ("triangle", 2): [[(0, 0), (2, "0.5"), ("0.5", 3)], [("0.25", 0), ("0.5", 2), (3, 1)]],
    ("triangle", 3): [[(0, 0, 1), (2, 1, 0), (1, 3, 2)], [(1, 0, 0), (0, 2, 1), (3, 1, "0.5")]],
    ("tetrahedron", 3): [
        [(0, 0, 0), (2, 1, 0), (1, 3, 1), (0, 1, 2)],
        [(0, 0, 0), (1, 3, 1), (2, 1, 0), ("0.5", 1, 2)],
    ],
}

POINTS = {
    1: [[mpf(3) / 10], [mpf(7) / 10]],
    2: [[mpf(1) / 5, mpf(3) / 10], [mpf(1) / 2, mpf(1) / 8]],
    3: [[mpf(1) / 5, mpf(3) / 10, mpf(1) / 8], [mpf(1) / 10, mpf(1) / 2, mpf(1) / 4]],
}

TDIM = {"interval": 1, "triangle": 2, "tetrahedron": 3}


def mesh(cellname, gdim=None):
    tdim = TDIM[cellname]
    gdim = gdim or tdim
    return ufl.Mesh(E.P(cellname, 1, (gdim,)))


def cell_envs(cellname, gdim=None, complex_too=False, n=2, orientation=1, salt=0):
    """One-sided environments with an interior point."""
    tdim = TDIM[cellname]
    gdim = gdim or tdim
    out = []
    vs = VERTS[(cellname, gdim)]
    for k in range(n):
        verts = vs[k % len(vs)]
        c = ConcreteCell(cellname, verts, orientation=orientation if k % 2 == 0 else -orientation)
        X0 = POINTS[tdim][k % 2]
        out.append(Env(c, X0, fields=FieldData(salt=salt + k), name=f"{cellname}{gdim}d#{k}"))
    if complex_too:
        c = ConcreteCell(cellname, vs[0], orientation=orientation)
        out.append(
            Env(c, POINTS[tdim][0], fields=FieldData(salt=salt + 7, complex_mode=True), name=f"{cellname}{gdim}d#complex")
        )
    return out


def facet_bary(tdim, k=0):
    if tdim == 1:
        return [1]
    if tdim == 2:
        return [[3, 7], [2, 1]][k % 2]
    return [[2, 3, 5], [5, 1, 2]][k % 2]


def facet_envs(cellname, gdim=None, complex_mode=False, facets=None, salt=0, which=0, orientation=1):
    """One-sided environments with a point on each facet."""
    tdim = TDIM[cellname]
    gdim = gdim or tdim
    verts = VERTS[(cellname, gdim)][which % len(VERTS[(cellname, gdim)])]
    out = []
    for f in facets if facets is not None else range(tdim + 1):
        c = ConcreteCell(cellname, verts, orientation=orientation)
        X0 = list(c.facet_point(f, facet_bary(tdim, f)))
        out.append(
            Env(
                c,
                X0,
                facet=f,
                fields=FieldData(salt=salt + f, complex_mode=complex_mode),
                name=f"{cellname}{gdim}d facet {f}" + (f" [vertex set {which}, orientation {orientation}]" if which or orientation != 1 else ""),
            )
        )
    return out


APEX = {
    ("interval", 1): [("4.5",)],
    ("interval", 2): [(4, 5)],
    ("triangle", 2): [(3, 3), (4, "2.5")],
    ("triangle", 3): [(3, 3, 0)],
    ("tetrahedron", 3): [(3, 3, 2)],
}


def interior_facet_envs(cellname, gdim=None, complex_mode=False, salt=0, facets=None, perms=None, which=0, orientation=1):
    """Two-sided environments: '+' cell, facet f, and a neighbour '-' sharing that facet."""
    tdim = TDIM[cellname]
    gdim = gdim or tdim
    verts = VERTS[(cellname, gdim)][which % len(VERTS[(cellname, gdim)])]
    out = []
    for f in facets if facets is not None else range(tdim + 1):
        cp = ConcreteCell(cellname, verts, orientation=orientation)
        # apex on the other side of the facet: reflect the opposite vertex through the facet centroid
        fv = cp.facet_vertices(f)
        (opp,) = [v for v in range(tdim + 1) if v not in fv]
        cen = sum((cp.V[v] for v in fv), 0 * cp.V[0]) / len(fv)
        apex = [2 * cen[i] - cp.V[opp][i] + mpf(i + 1) / 7 * (1 if tdim > 1 else 0) for i in range(gdim)]
        if tdim == 1:
            apex = [2 * cen[i] - cp.V[opp][i] for i in range(gdim)]
            apex = [a * mpf(5) / 4 if gdim == 1 else a for a in apex]
        nfv = len(fv)
        perm_list = perms or [None, [("f", k) for k in reversed(range(nfv))] + ["a"]]
        for pi, perm in enumerate(perm_list):
            cm, f2 = neighbour(cp, f, apex, perm)
            Xp = list(cp.facet_point(f, facet_bary(tdim, f)))
            x = cp.to_physical(Xp)
            Xm = list(cm.to_reference(x))
            out.append(
                Env(
                    {"+": cp, "-": cm},
                    {"+": Xp, "-": Xm},
                    facet={"+": f, "-": f2},
                    fields=FieldData(salt=salt + 10 * f + pi, complex_mode=complex_mode),
                    name=f"{cellname}{gdim}d interior facet {f}/{f2}" + (f" [vertex set {which}, orientation {orientation}]" if which or orientation != 1 else ""),
                )
            )
    return out
