"""Form-level semantics: which integrand is integrated where, environments per integral type, measure scaling."""

from mpmath import mpf

from mc import envs as EV
from mc.sem import sem as M
from mc.sem.cells import pdet
from mc.sem.jet import ONE, Ambiguous, Undefined

CELL, EXT, INT = "cell", "exterior_facet", "interior_facet"


def envs_for(integral_type, cellname, gdim, complex_mode=False, n=1, salt=0, both_orientations=False):
    """Environments appropriate for an integral type.

    both_orientations: additionally the second vertex set of the catalogue (det J < 0 on non-immersed cells) with
    cell orientation -1 (which only immersed cells look at)."""
    if integral_type == CELL:
        out = EV.cell_envs(cellname, gdim, n=max(n, 2) if both_orientations else n, salt=salt)
        if complex_mode:
            for e in out:
                e.fields.complex_mode = True
        return out
    tdim = EV.TDIM[cellname]
    if integral_type == EXT:
        facets = list(range(tdim + 1))[: max(1, n + 1)]
        out = EV.facet_envs(cellname, gdim, complex_mode=complex_mode, facets=facets, salt=salt)
        if both_orientations:
            out += EV.facet_envs(cellname, gdim, complex_mode=complex_mode, facets=facets, salt=salt + 20, which=1, orientation=-1)
        return out
    if integral_type == INT:
        facets = list(range(tdim + 1))[:n]
        out = EV.interior_facet_envs(cellname, gdim, complex_mode=complex_mode, facets=facets, salt=salt)
        if both_orientations:
            out += EV.interior_facet_envs(cellname, gdim, complex_mode=complex_mode, facets=facets, salt=salt + 20, which=1, orientation=-1, perms=[None])
        return out
    raise ValueError(integral_type)


def measure_scale(integral_type, env):
    """Physical measure / reference measure at the point, times the quadrature weight symbol (model)."""
    cell = env.cells["+"]
    w = env.qweight
    if integral_type == CELL:
        return cell.pdetJ * w if cell.tdim > 0 else ONE
    if integral_type in (EXT, INT):
        if cell.tdim > 1:
            f = env.facet["+"]
            return abs(pdet(cell.facet_jacobian(f))) * w
        return ONE
    raise ValueError(integral_type)


def applies(orig_sid, target_sid, append_everywhere):
    """Does an original integral with subdomain id orig_sid contribute to the grouped id target_sid?"""
    if target_sid == "otherwise":
        return orig_sid in ("everywhere", "otherwise")
    if orig_sid in ("everywhere", "otherwise"):
        return append_everywhere
    if isinstance(orig_sid, tuple):
        return target_sid in orig_sid
    return orig_sid == target_sid


def sum_integrands(integrands, env, tol=None):
    """Sum of the model values of scalar integrands in env (raises Undefined/Ambiguous)."""
    tot = mpf(0)
    ctx = M.Ctx(env)
    for e in integrands:
        tot = tot + M.sem(e, ctx, {})
    return tot


def original_integrands(form):
    """List of (integral_type, subdomain_id, integrand, metadata) of a form."""
    out = []
    for itg in form.integrals():
        out.append((itg.integral_type(), itg.subdomain_id(), itg.integrand(), itg.metadata()))
    return out


def set_alias(env, replace_map):
    """Renumbered coefficients denote the same field as the originals."""
    env.alias = {new: old for old, new in replace_map.items()}
