"""Entry point: ./check Cnn [--tier quick|thorough] [--replay FILE]."""
import importlib
import sys

import mc  # noqa: F401  (sets up sys.path for _deps)


def main():
    if len(sys.argv) < 2:
        print("usage: check Cnn [--tier quick|thorough] [--replay FILE]", file=sys.stderr)
        sys.exit(2)
    pid = sys.argv[1].upper()
    if pid == "SELFTEST":
        from mc.sem import cells, jet

        print("jet selftest:", jet.selftest(), "checks; cells selftest:", cells.selftest(), "checks")
        return
    mod = importlib.import_module(f"mc.props.{pid.lower()}")
    mod.main(sys.argv[2:])


if __name__ == "__main__":
    main()
