"""Time limit for single calls into the code under test (hangs are reported, not waited for)."""

import contextlib
import signal


class HangError(BaseException):
    """Derives from BaseException so that broad `except Exception` blocks in the code under test cannot swallow it."""


@contextlib.contextmanager
def time_limit(seconds, what=""):
    def handler(signum, frame):
        raise HangError(f"no result after {seconds} s: {what}")

    old = signal.signal(signal.SIGALRM, handler)
    signal.alarm(int(seconds))
    try:
        yield
    finally:
        signal.alarm(0)
        signal.signal(signal.SIGALRM, old)
