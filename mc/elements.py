"""Finite elements for the harness (own implementation of ufl.AbstractFiniteElement)."""

from ufl.cell import Cell
from ufl.finiteelement import AbstractFiniteElement
from ufl.pullback import (
    IdentityPullback,
    MixedPullback,
    SymmetricPullback,
    contravariant_piola,
    covariant_contravariant_piola,
    covariant_piola,
    double_contravariant_piola,
    double_covariant_piola,
    identity_pullback,
    l2_piola,
)
from ufl.sobolevspace import H1, L2, HCurl, HDiv, HDivDiv, HEin


class Elem(AbstractFiniteElement):
    def __init__(
        self,
        family,
        cell,
        degree,
        reference_value_shape,
        pullback,
        sobolev_space,
        sub_elements=(),
        subdegree=None,
        rep=None,
    ):
        if isinstance(sobolev_space, str):
            import ufl.sobolevspace as _ss

            sobolev_space = getattr(_ss, sobolev_space)
        self._family = family
        self._cell = cell
        self._degree = degree
        self._rvs = tuple(reference_value_shape)
        self._pullback = pullback
        self._sobolev = sobolev_space
        self._subs = list(sub_elements)
        self._subdegree = degree if subdegree is None else subdegree
        self._rep = rep or (
            # NB: the name only: SobolevSpace.__repr__ lists a frozenset, whose order depends on PYTHONHASHSEED
            f"Elem({family!r}, {cell!r}, {degree}, {self._rvs}, {pullback!r}, {sobolev_space.name!r}"
            + (f", {self._subs!r}" if self._subs else "")
            + ")"
        )

    def __repr__(self):
        return self._rep

    def __str__(self):
        return f"<{self._family}{self._degree} on {self._cell}>"

    def __hash__(self):
        return hash(self._rep)

    def __eq__(self, other):
        return type(self) is type(other) and self._rep == other._rep

    @property
    def sobolev_space(self):
        return self._sobolev

    @property
    def pullback(self):
        return self._pullback

    @property
    def embedded_superdegree(self):
        return self._degree

    @property
    def embedded_subdegree(self):
        return self._subdegree

    @property
    def cell(self):
        return self._cell

    @property
    def reference_value_shape(self):
        return self._rvs

    @property
    def sub_elements(self):
        return self._subs


def _cell(c):
    return c if not isinstance(c, str) else Cell(c)


def P(cell, degree, shape=()):
    """(Blocked) Lagrange."""
    cell = _cell(cell)
    return Elem("P", cell, degree, shape, identity_pullback, H1)


def DG(cell, degree, shape=()):
    cell = _cell(cell)
    return Elem("DG", cell, degree, shape, identity_pullback, L2)


def RT(cell, degree):
    cell = _cell(cell)
    return Elem("RT", cell, degree, (cell.topological_dimension,), contravariant_piola, HDiv, subdegree=degree - 1)


def N1curl(cell, degree):
    cell = _cell(cell)
    return Elem("N1curl", cell, degree, (cell.topological_dimension,), covariant_piola, HCurl, subdegree=degree - 1)


def DGpiola(cell, degree):
    cell = _cell(cell)
    return Elem("DGpiola", cell, degree, (), l2_piola, L2)


def Regge(cell, degree):
    cell = _cell(cell)
    t = cell.topological_dimension
    return Elem("Regge", cell, degree, (t, t), double_covariant_piola, HEin)


def HHJ(cell, degree):
    cell = _cell(cell)
    t = cell.topological_dimension
    return Elem("HHJ", cell, degree, (t, t), double_contravariant_piola, HDivDiv)


def CovContra(cell, degree):
    cell = _cell(cell)
    t = cell.topological_dimension
    return Elem("GLS", cell, degree, (t, t), covariant_contravariant_piola, L2)


class Mixed(Elem):
    def __init__(self, subs):
        subs = list(subs)
        cell = subs[0].cell
        degree = max(e.embedded_superdegree for e in subs)
        rvs = (sum(e.reference_value_size for e in subs),)
        if all(isinstance(e.pullback, IdentityPullback) for e in subs):
            pb = identity_pullback
        else:
            pb = MixedPullback(self)
        self._subs = subs
        sob = max(e.sobolev_space for e in subs)
        Elem.__init__(
            self,
            "Mixed",
            cell,
            degree,
            rvs,
            pb,
            sob,
            sub_elements=subs,
            subdegree=min(e.embedded_subdegree for e in subs),
            rep=f"Mixed({subs!r})",
        )


class Symmetric(Elem):
    def __init__(self, symmetry, subs):
        subs = list(subs)
        self._subs = subs
        self._symmetry = dict(symmetry)
        cell = subs[0].cell
        degree = max(e.embedded_superdegree for e in subs)
        rvs = (sum(e.reference_value_size for e in subs),)
        pb = SymmetricPullback(self, symmetry)
        sob = max(e.sobolev_space for e in subs)
        Elem.__init__(
            self,
            "Symmetric",
            cell,
            degree,
            rvs,
            pb,
            sob,
            sub_elements=subs,
            subdegree=min(e.embedded_subdegree for e in subs),
            rep=f"Symmetric({symmetry!r}, {subs!r})",
        )


def SymP(cell, degree, n=None):
    """Symmetric n x n tensor of Lagrange sub-elements."""
    cell = _cell(cell)
    n = n or cell.topological_dimension
    sym = {}
    k = 0
    for i in range(n):
        for j in range(i, n):
            sym[(i, j)] = k
            sym[(j, i)] = k
            k += 1
    return Symmetric(sym, [P(cell, degree) for _ in range(k)])
