"""Common runner: tiers, seeds, evidence, known findings, violations and replay files, parallel map."""

import argparse
import hashlib
import json
import multiprocessing as mp
import os
import sys
import time
import traceback

VERIF = os.path.dirname(os.path.dirname(os.path.abspath(__file__)))
EVIDENCE_DIR = os.path.join(VERIF, "evidence")
VIOLATION_CAP = 5000
REPLAY_DIR = os.path.join(VERIF, "replays")
KNOWN = os.path.join(VERIF, "known_findings.json")
SCHEMA = "/root/.vp/EVIDENCE.schema.json"
NPROC = int(os.environ.get("VERIF_NPROC", "16"))

COMMON_ASSUMPTIONS = [
    "bounded exhaustive exploration: nothing is claimed beyond the stated alphabet/depth/environment bounds",
    "the reference model (/verif/mc/sem) is correct; it is validated by its self-tests and by agreeing with the implementation on every explored state",
]


def jsonable(x):
    if isinstance(x, dict):
        return {str(k): jsonable(v) for k, v in x.items()}
    if isinstance(x, (list, tuple, set, frozenset)):
        return [jsonable(v) for v in x]
    if isinstance(x, (str, int, float, bool)) or x is None:
        return x
    return str(x)


def key_hash(key):
    return hashlib.sha1(key.encode()).hexdigest()[:12]


class Run:
    def __init__(self, pid, argv=None, level="model_checking"):
        ap = argparse.ArgumentParser(prog=f"check {pid}")
        ap.add_argument("--tier", default=os.environ.get("VERIF_TIER", "quick"))
        ap.add_argument("--replay", default=None)
        ap.add_argument("--seed", type=int, default=int(os.environ.get("VERIF_SEED", "0") or 0))
        self.args = ap.parse_args(argv)
        self.pid = pid
        self.tier = "thorough" if self.args.tier.startswith("th") else "quick"
        # --tier smoke: development aid (tiny bounds); evidence is still tagged quick
        self.smoke = self.args.tier == "smoke"
        self.seed = self.args.seed
        self.level = level
        self.t0 = time.time()
        self.states = 0
        self.transitions = 0
        self.validated = 0
        self.evaluations = 0
        self.nontrivial = 0
        self.errors = {}
        self.counters = {}
        self.outcomes = set()
        self.samples = []
        self.violations = []
        self._violation_keys = set()
        self.violations_dropped = 0  # beyond VIOLATION_CAP only counted (a broken tree can produce millions)
        self.known_hits = {}
        self.assumptions = list(COMMON_ASSUMPTIONS)
        self.extra = {}
        self.exhaustive = True
        self.rule = ""
        self.bounds = {}
        self.known = []
        if os.path.exists(KNOWN):
            with open(KNOWN) as f:
                kf = json.load(f)
            self.known = [k for k in kf.get("findings", []) if k.get("property") == pid]

    # ---------------------------------------------------------------------------------------
    def thorough(self):
        return self.tier == "thorough"

    def count(self, name, n=1):
        self.counters[name] = self.counters.get(name, 0) + n

    def error(self, exc_name, n=1):
        self.errors[exc_name] = self.errors.get(exc_name, 0) + n

    def sample(self, s, limit=12):
        if len(self.samples) < limit:
            self.samples.append(jsonable(s))

    def match_known(self, key):
        import re

        for k in self.known:
            if k.get("key") == key:
                return k
            pat = k.get("pattern")
            if pat and re.search(pat, key):
                return k
        return None

    def violation(self, key, what, witness):
        """Report a violation identified by a canonical key (string)."""
        k = self.match_known(key)
        if k is not None:
            kid = k.get("id", k.get("key", k.get("pattern")))
            if kid not in self.known_hits:
                self.known_hits[kid] = {"what": k["what"], "count": 0, "first_key": key}
            self.known_hits[kid]["count"] += 1
            return False
        if key in self._violation_keys:
            return True
        self._violation_keys.add(key)
        if len(self.violations) >= VIOLATION_CAP:
            self.violations_dropped += 1
            return True
        self.violations.append({"key": key, "what": what, "witness": jsonable(witness)})
        return True

    def merge(self, part):
        """Merge a worker's partial result dict."""
        self.states += part.get("states", 0)
        self.transitions += part.get("transitions", 0)
        self.validated += part.get("validated", 0)
        self.evaluations += part.get("evaluations", 0)
        self.nontrivial += part.get("nontrivial", 0)
        for k, v in part.get("errors", {}).items():
            self.error(k, v)
        for k, v in part.get("counters", {}).items():
            self.count(k, v)
        for o in part.get("outcomes", []):
            if len(self.outcomes) < 100000:
                self.outcomes.add(o)
        for s in part.get("samples", []):
            self.sample(s)
        for v in part.get("violations", []):
            self.violation(v["key"], v["what"], v["witness"])

    # ---------------------------------------------------------------------------------------
    def finish(self):
        os.makedirs(EVIDENCE_DIR, exist_ok=True)
        wall = time.time() - self.t0
        for kid, h in self.known_hits.items():
            print(f"KNOWN-FINDING: property={self.pid} {h['what']} (matched {h['count']} explored inputs)")
        replay_paths = []
        if self.violations:
            os.makedirs(REPLAY_DIR, exist_ok=True)
            for v in self.violations[:200]:
                path = os.path.join(REPLAY_DIR, f"{self.pid}-{key_hash(v['key'])}.json")
                with open(path, "w") as f:
                    json.dump(
                        {"property": self.pid, "key": v["key"], "what": v["what"], "witness": v["witness"]},
                        f,
                        indent=1,
                    )
                replay_paths.append(path)
        cov = {
            "states": int(self.states) + int(self.counters.get("violating_states", 0)),
            "transitions": int(self.transitions),
            "traces_validated_against_impl": int(self.validated),
            "evaluations": int(self.evaluations),
            "distinct_nontrivial": int(self.nontrivial),
            "rule": self.rule,
            "samples": self.samples or ["(none)"],
            "exhaustive": bool(self.exhaustive),
            "bounds": jsonable(self.bounds),
            "distinct_outcomes": len(self.outcomes),
            "error_transitions": self.errors,
            "counters": self.counters,
            "known_findings_hit": jsonable(self.known_hits),
        }
        if not self.evaluations:
            # not measured separately by this driver (states/transitions/validated are the model-checking counts)
            del cov["evaluations"]
        cov.update(jsonable(self.extra))
        ev = {
            "property_id": self.pid,
            "tier": self.tier,
            "seed": int(self.seed),
            "level": self.level,
            "coverage": cov,
            "assumptions": self.assumptions,
            "wall_s": round(wall, 3),
            "violations": len(self.violations) + self.violations_dropped,
        }
        try:
            import jsonschema

            with open(SCHEMA) as f:
                schema = json.load(f)
            jsonschema.validate(ev, schema)
        except ImportError:
            pass
        except FileNotFoundError:
            pass
        if self.args.replay is None:
            with open(os.path.join(EVIDENCE_DIR, f"{self.pid}.json"), "w") as f:
                json.dump(ev, f, indent=1)
        print(
            f"[{self.pid}] tier={self.tier} seed={self.seed} states={self.states} transitions={self.transitions} "
            f"validated={self.validated} nontrivial={self.nontrivial} outcomes={len(self.outcomes)} "
            f"errors={sum(self.errors.values())} violations={len(self.violations) + self.violations_dropped} "
            f"known={sum(h['count'] for h in self.known_hits.values())} wall={wall:.1f}s"
        )
        if self.violations:
            for v, p in zip(self.violations, replay_paths):
                print(f"VIOLATION property={self.pid} replay={p}")
                print(f"  what: {v['what']}")
                print(f"  key:  {v['key'][:300]}")
            if len(self.violations) > len(replay_paths):
                print(f"  ... and {len(self.violations) - len(replay_paths)} more violations")
            sys.exit(1)
        sys.exit(0)


# -------------------------------------------------------------------------------------------------
# parallel map with fork
# -------------------------------------------------------------------------------------------------

_WORK = {}


def _call(args):
    fid, chunk = args
    f = _WORK[fid]
    try:
        return f(chunk)
    except BaseException as e:  # noqa: BLE001
        return {"__harness_error__": f"{type(e).__name__}: {e}\n{traceback.format_exc()}"}


def pmap(f, items, nproc=None, chunks_per_proc=4, seed=0):
    """Apply f(list_of_items) -> partial dict over chunks of items in forked workers."""
    items = list(items)
    nproc = nproc or NPROC
    if seed:
        # the seed only permutes the sharding order; the set of items is the same
        import random

        rnd = random.Random(seed)
        rnd.shuffle(items)
    if not items:
        return []
    nchunks = max(1, min(len(items), nproc * chunks_per_proc))
    chunks = [items[k::nchunks] for k in range(nchunks)]
    fid = id(f)
    _WORK[fid] = f
    if nproc == 1 or len(items) < 4:
        res = [_call((fid, c)) for c in chunks]
    else:
        ctx = mp.get_context("fork")
        with ctx.Pool(min(nproc, nchunks)) as pool:
            res = pool.map(_call, [(fid, c) for c in chunks], chunksize=1)
    for r in res:
        if isinstance(r, dict) and "__harness_error__" in r:
            print("HARNESS ERROR in worker:\n" + r["__harness_error__"], file=sys.stderr)
            sys.exit(2)
    return res


class Part:
    """Accumulator used inside workers (mirrors Run's counters, picklable via .dict())."""

    def __init__(self):
        self.d = dict(
            states=0,
            transitions=0,
            validated=0,
            evaluations=0,
            nontrivial=0,
            errors={},
            counters={},
            outcomes=set(),
            samples=[],
            violations=[],
        )

    def inc(self, k, n=1):
        self.d[k] += n

    def count(self, k, n=1):
        self.d["counters"][k] = self.d["counters"].get(k, 0) + n

    def error(self, k, n=1):
        self.d["errors"][k] = self.d["errors"].get(k, 0) + n

    def outcome(self, o):
        if len(self.d["outcomes"]) < 2000:
            self.d["outcomes"].add(o)

    def sample(self, s, limit=3):
        if len(self.d["samples"]) < limit:
            self.d["samples"].append(jsonable(s))

    def violation(self, key, what, witness):
        self.d["violations"].append({"key": key, "what": what, "witness": jsonable(witness)})

    def dict(self):
        d = dict(self.d)
        d["outcomes"] = list(d["outcomes"])
        return d
